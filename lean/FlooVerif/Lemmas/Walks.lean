/-
  Walks of a given length and distances in a directed graph given by an edge relation.
  Used by the correctness proof of the bidirectional breadth-first search (Props/Bfs.lean).
-/
namespace FlooVerif.Walks

variable {α : Type}

/-- a walk with exactly `k` edges -/
inductive Walk (E : α → α → Prop) : Nat → α → α → Prop where
  | nil (a : α) : Walk E 0 a a
  | cons {k : Nat} {a b c : α} : E a b → Walk E k b c → Walk E (k + 1) a c

variable {E : α → α → Prop}

theorem walk_zero {a b : α} (h : Walk E 0 a b) : a = b := by cases h; rfl

theorem walk_one {a b : α} (h : E a b) : Walk E 1 a b := .cons h (.nil b)

theorem walk_snoc : ∀ {k : Nat} {a b c : α}, Walk E k a b → E b c → Walk E (k + 1) a c := by
  intro k
  induction k with
  | zero => intro a b c h e; cases h; exact walk_one e
  | succ k ih =>
    intro a b c h e
    cases h with
    | cons e1 w => exact .cons e1 (ih w e)

theorem walk_append : ∀ {i j : Nat} {a b c : α}, Walk E i a b → Walk E j b c → Walk E (i + j) a c := by
  intro i
  induction i with
  | zero => intro j a b c h1 h2; cases h1; simpa using h2
  | succ i ih =>
    intro j a b c h1 h2
    cases h1 with
    | cons e w =>
      have := ih w h2
      have h : i + 1 + j = (i + j) + 1 := by omega
      rw [h]; exact .cons e this

theorem walk_split : ∀ (i : Nat) {j : Nat} {a c : α}, Walk E (i + j) a c → ∃ b, Walk E i a b ∧ Walk E j b c := by
  intro i
  induction i with
  | zero => intro j a c h; exact ⟨a, .nil a, by simpa using h⟩
  | succ i ih =>
    intro j a c h
    have h' : i + 1 + j = (i + j) + 1 := by omega
    rw [h'] at h
    cases h with
    | cons e w =>
      obtain ⟨b, w1, w2⟩ := ih w
      exact ⟨b, .cons e w1, w2⟩

/-- last step of a non-empty walk -/
theorem walk_last : ∀ {k : Nat} {a c : α}, Walk E (k + 1) a c → ∃ b, Walk E k a b ∧ E b c := by
  intro k a c h
  obtain ⟨b, w1, w2⟩ := walk_split k (j := 1) h
  cases w2 with
  | cons e w => cases w; exact ⟨b, w1, e⟩

/-- walks of the reversed relation -/
theorem walk_rev : ∀ {k : Nat} {a b : α}, Walk E k a b → Walk (fun x y => E y x) k b a := by
  intro k
  induction k with
  | zero => intro a b h; cases h; exact .nil _
  | succ k ih =>
    intro a b h
    cases h with
    | cons e w => exact walk_snoc (ih w) e

/-- `k` is the distance from `a` to `b` -/
def Dist (E : α → α → Prop) (a b : α) (k : Nat) : Prop := Walk E k a b ∧ ∀ j, Walk E j a b → k ≤ j

theorem dist_unique {a b : α} {k k' : Nat} (h : Dist E a b k) (h' : Dist E a b k') : k = k' :=
  Nat.le_antisymm (h.2 _ h'.1) (h'.2 _ h.1)

theorem dist_self (a : α) : Dist E a a 0 := ⟨.nil a, fun _ _ => Nat.zero_le _⟩

/-- every reachable node has a distance -/
theorem dist_exists : ∀ (k : Nat) {a b : α}, Walk E k a b → ∃ d, d ≤ k ∧ Dist E a b d := by
  intro k
  induction k using Nat.strongRecOn with
  | _ k ih =>
    intro a b h
    by_cases hmin : ∀ j, Walk E j a b → k ≤ j
    · exact ⟨k, Nat.le_refl _, h, hmin⟩
    · have : ∃ j, Walk E j a b ∧ j < k := by
        apply Classical.byContradiction
        intro hne
        apply hmin
        intro j hj
        apply Classical.byContradiction
        intro hlt
        exact hne ⟨j, hj, by omega⟩
      obtain ⟨j, hj, hlt⟩ := this
      obtain ⟨d, hd, hdist⟩ := ih j hlt hj
      exact ⟨d, by omega, hdist⟩

/-- on a shortest walk every prefix is shortest -/
theorem dist_prefix {a b c : α} {i j : Nat} (hd : Dist E a c (i + j)) (w1 : Walk E i a b) (w2 : Walk E j b c) :
    Dist E a b i := by
  refine ⟨w1, ?_⟩
  intro i' w1'
  have := hd.2 _ (walk_append w1' w2)
  omega

/-- … and every suffix -/
theorem dist_suffix {a b c : α} {i j : Nat} (hd : Dist E a c (i + j)) (w1 : Walk E i a b) (w2 : Walk E j b c) :
    Dist E b c j := by
  refine ⟨w2, ?_⟩
  intro j' w2'
  have := hd.2 _ (walk_append w1 w2')
  omega

/-- a node at distance `k + 1` has a predecessor at distance `k` -/
theorem dist_pred {a c : α} {k : Nat} (hd : Dist E a c (k + 1)) : ∃ b, Dist E a b k ∧ E b c := by
  obtain ⟨b, w, e⟩ := walk_last hd.1
  exact ⟨b, dist_prefix (i := k) (j := 1) hd w (walk_one e), e⟩

/-- one more edge adds at most one to the distance -/
theorem dist_step_le {a b c : α} {k d : Nat} (hb : Dist E a b k) (e : E b c) (hc : Dist E a c d) : d ≤ k + 1 :=
  hc.2 _ (walk_snoc hb.1 e)

end FlooVerif.Walks

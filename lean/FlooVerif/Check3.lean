/-
  Deciders for C08 (top-level ports), C11 (bindings against the shipped RTL, over the
  regenerated `HwFacts`) and C12 (structural well-formedness of the emitted text).
-/
import FlooVerif.Check2
import FlooVerif.Facts
namespace FlooVerif
open Hw Sv

/-! ## C08 -/
namespace C08

def protOf (d : Desc) (name : String) : Option ProtDesc := d.protocols.find? (·.name == name)

/-- packed dimensions of a port: the endpoint's shape with unit dimensions dropped -/
def shapeDims (e : EpDesc) : List Nat := (e.array.getD []).filter (· != 1)

def dimsOfType (t : TypeRef) : Option (List Nat) :=
  t.dims.mapM fun
    | (.num h, .num 0) => some (h + 1)
    | _ => none

structure PortExp where
  name : String
  dir : String
  ty : String
  dims : List Nat
  deriving Repr, DecidableEq, Inhabited

def expectedPorts (d : Desc) : List PortExp :=
  d.endpoints.flatMap fun e =>
    let mk (isMgr : Bool) (pn : String) : List PortExp :=
      match protOf d pn with
      | none => []
      | some p =>
        let base := e.name ++ "_" ++ p.name
        if isMgr then
          [{ name := base ++ "_req_i", dir := "input", ty := p.typeName ++ "_req_t", dims := shapeDims e },
           { name := base ++ "_rsp_o", dir := "output", ty := p.typeName ++ "_rsp_t", dims := shapeDims e }]
        else
          [{ name := base ++ "_req_o", dir := "output", ty := p.typeName ++ "_req_t", dims := shapeDims e },
           { name := base ++ "_rsp_i", dir := "input", ty := p.typeName ++ "_rsp_t", dims := shapeDims e }]
    (e.mgr.getD []).flatMap (mk true) ++ (e.sbr.getD []).flatMap (mk false)

/-- `name[i][j]` with unit dimensions dropped -/
def elemExpr (name : String) (i : EpInst) : Expr :=
  let idx := (i.idx.zip (i.ep.array.getD [])).filterMap fun (k, dim) => if dim != 1 then some k else none
  idx.foldl (fun e k => .index e (.num k)) (.ident name)

/-- protocols of one role and kind ("" = axi network, "narrow", "wide") -/
def rolesOf (d : Desc) (names : Option (List String)) (kind : String) : List ProtDesc :=
  (names.getD []).filterMap fun nm =>
    match protOf d nm with
    | some p => if kind == "" || p.type == some kind then some p else none
    | none => none

def bitLit (b : Bool) : Expr := .lit 1 'b' (if b then "1" else "0")

def chimneyFindings (d : Desc) (n : Net) (i : EpInst) : List Finding :=
  match chimneyOf n i with
  | none => [fnd "ni-missing" i.niName "no network interface"]
  | some c =>
    let kinds : List (String × String) :=
      if d.netType == .axi then [("", "axi")] else [("narrow", "axi_narrow"), ("wide", "axi_wide")]
    kinds.flatMap fun (kind, pfx) =>
      let mgrs := rolesOf d i.ep.mgr kind
      let sbrs := rolesOf d i.ep.sbr kind
      let site := s!"{i.niName}/{pfx}"
      let side (ps : List ProtDesc) (reqPort rspPort : String) (reqSfx rspSfx : String)
               (tyReq tyRsp : String) : List Finding :=
        match ps with
        | [] =>
          -- unused side: input tied to '0, output left open
          let inP := if reqSfx == "_req_i" then reqPort else rspPort
          let outP := if reqSfx == "_req_i" then rspPort else reqPort
          (match c.binds.find? (·.port == inP) with
           | some (.conn _ (.tick '0')) => []
           | _ => [fnd "port-tieoff" site s!".{inP} of an unused side is not tied to '0"]) ++
          (match c.binds.find? (·.port == outP) with
           | some (.open_ _) => []
           | _ => [fnd "port-tieoff" site s!".{outP} of an unused side is not left open"])
        | _ =>
          -- some declared protocol of that side is bound, element-wise
          let okFor (p : ProtDesc) : Bool :=
            let base := i.ep.name ++ "_" ++ p.name
            Hw.bindExpr c reqPort == some (elemExpr (base ++ reqSfx) i) &&
            Hw.bindExpr c rspPort == some (elemExpr (base ++ rspSfx) i) &&
            -- the interface is built for the types of a protocol with exactly this protocol's widths
            -- (its own, or another one of the same side that shares the AXI configuration)
            (ps ++ d.protocols).any fun q =>
              q.dataW == p.dataW && q.addrW == p.addrW && q.idW == p.idW && q.userW == p.userW &&
              (c.params.find? (·.1 == tyReq)).map (·.2) == some (.ident (q.typeName ++ "_req_t")) &&
              (c.params.find? (·.1 == tyRsp)).map (·.2) == some (.ident (q.typeName ++ "_rsp_t"))
          if ps.any okFor then [] else
            [fnd "port-binding" site s!".{reqPort}/.{rspPort} are not bound to element {repr i.idx} of a declared port of matching type"]
      let mgrF := side mgrs (pfx ++ "_in_req_i") (pfx ++ "_in_rsp_o") "_req_i" "_rsp_o"
                    (pfx ++ "_in_req_t") (pfx ++ "_in_rsp_t")
      let sbrF := side sbrs (pfx ++ "_out_req_o") (pfx ++ "_out_rsp_i") "_req_o" "_rsp_i"
                    (pfx ++ "_out_req_t") (pfx ++ "_out_rsp_t")
      let cfgParam := if d.netType == .axi then "ChimneyCfg" else if kind == "narrow" then "ChimneyCfgN" else "ChimneyCfgW"
      let expCfg : Expr := .call "set_ports" [.ident "ChimneyDefaultCfg", bitLit (!sbrs.isEmpty), bitLit (!mgrs.isEmpty)]
      let cfgF := if (c.params.find? (·.1 == cfgParam)).map (·.2) == some expCfg then [] else
        [fnd "role-enable" site s!".{cfgParam} does not enable exactly the declared sides (sbr={!sbrs.isEmpty}, mgr={!mgrs.isEmpty})"]
      mgrF ++ sbrF ++ cfgF

def cfgFindings (d : Desc) (n : Net) : List Finding :=
  let cfgs : List (String × String) :=
    if d.netType == .axi then [("AxiCfg", "")] else [("AxiCfgN", "narrow"), ("AxiCfgW", "wide")]
  cfgs.flatMap fun (nm, kind) =>
    match ((n.pkgParams.find? (·.1 == nm)).map (·.2.2) : Option Expr) with
    | some (.pat fs) =>
      let get (k : String) := (patField fs k).bind exprNat?
      let ofKind := d.protocols.filter fun p => kind == "" || p.type == some kind
      let usedAs (mgr : Bool) := ofKind.filter fun p =>
        p.direction == some (if mgr then "input" else "output") ||
        d.endpoints.any fun e => ((if mgr then e.mgr else e.sbr).getD []).contains p.name
      let chk (field : String) (vals : List Nat) : List Finding :=
        match get field with
        | some v => if vals.contains v then [] else [fnd "axi-cfg" s!"{nm}.{field}" s!"{v} is not the protocols' value {repr vals}"]
        | none => [fnd "axi-cfg" s!"{nm}.{field}" "missing"]
      chk "AddrWidth" (ofKind.map (·.addrW)) ++ chk "DataWidth" (ofKind.map (·.dataW)) ++
      chk "UserWidth" (ofKind.map (·.userW)) ++ chk "InIdWidth" ((usedAs true).map (·.idW)) ++
      chk "OutIdWidth" ((usedAs false).map (·.idW))
    | _ => [fnd "axi-cfg" nm "missing configuration record"]

def check (d : Desc) (n : Net) : List Finding :=
  let exp := expectedPorts d
  let got := n.top.ports
  let std := ["clk_i", "rst_ni", "test_enable_i"]
  let missing := exp.flatMap fun e =>
    match got.filter (·.name == e.name) with
    | [p] =>
      if p.dir == e.dir && p.ty.words == [e.ty] && dimsOfType p.ty == some e.dims then []
      else [fnd "top-port" e.name s!"declared `{p.dir} {repr p.ty.words} {repr (dimsOfType p.ty)}`, expected `{e.dir} {e.ty} {repr e.dims}`"]
    | [] => [fnd "top-port-missing" e.name "port not declared"]
    | _ => [fnd "top-port-dup" e.name "port declared more than once"]
  let extra := (got.filter fun p => !std.contains p.name && !(exp.any (·.name == p.name))).map fun p =>
    fnd "top-port-extra" p.name "port without endpoint/protocol"
  missing ++ extra ++ d.instances.flatMap (chimneyFindings d n) ++ cfgFindings d n

end C08

/-! ## C11 -/
namespace C11

def expandName (pieces : List NamePiece) (args : List String) : String :=
  String.join (pieces.map fun
    | .lit s => s
    | .arg i => args.getD i "")

/-- type names a macro invocation declares (following nested invocations, bounded depth) -/
def macroDefines (hw : HwFacts) : Nat → String → List String → List String
  | 0, _, _ => []
  | fuel + 1, name, args =>
    if name == "`AXI_TYPEDEF_ALL_CT" then
      -- axi/typedef.svh is a dependency outside the repository: fixed table
      let n := args.getD 0 ""
      [n ++ "_aw_chan_t", n ++ "_w_chan_t", n ++ "_b_chan_t", n ++ "_ar_chan_t", n ++ "_r_chan_t",
       args.getD 1 "", args.getD 2 ""]
    else
      match hw.macros.find? (·.name == name) with
      | none => []
      | some m =>
        m.defines.map (expandName · args) ++
        m.calls.flatMap fun (callee, argT) => macroDefines hw fuel callee (argT.map (expandName · args))

def macroArity (hw : HwFacts) (name : String) : Option Nat :=
  if name == "`AXI_TYPEDEF_ALL_CT" then some 8
  else (hw.macros.find? (·.name == name)).map (·.params.length)

def structFields (hw : HwFacts) (name : String) : List String :=
  ((hw.structs.find? (·.name == name)).map (·.fields)).getD []

def enumMembers (hw : HwFacts) (name : String) : List (String × Nat) :=
  ((hw.enums.find? (·.name == name)).map (·.members)).getD []

def instFindings (hw : HwFacts) (i : Inst) : List Finding :=
  match hw.modules.find? (·.name == i.mod) with
  | none => [fnd "module-unknown" i.name s!"module {i.mod} is not defined under hw/"]
  | some m =>
    (i.params.filterMap fun (p, _) =>
      if m.params.contains p then none else some (fnd "param-unknown" i.name s!"{i.mod} has no parameter {p}")) ++
    (i.binds.filterMap fun b =>
      match m.ports.find? (·.name == b.port) with
      | none => some (fnd "port-unknown" i.name s!"{i.mod} has no port {b.port}")
      | some mp =>
        match b with
        | .open_ _ => if mp.dir == "input" then some (fnd "input-unbound" i.name s!"input {b.port} left open") else none
        | .conn _ (.tick _) => if mp.dir == "output" then some (fnd "output-driven" i.name s!"output {b.port} tied to a constant") else none
        | _ => none) ++
    (m.ports.filterMap fun mp =>
      if mp.dir == "input" && !(i.binds.any (·.port == mp.name)) then
        some (fnd "input-unbound" i.name s!"input {mp.name} of {i.mod} is not bound") else none)

/-- every macro the package invokes exists in the shipped headers with that number of arguments
    (needs the parsed package only, not the netlist view) -/
def macroFindings (hw : HwFacts) (pkg : Sv.Package) : List Finding :=
  pkg.items.filterMap fun
    | .macro name args =>
      match macroArity hw name with
      | none => some (fnd "macro-unknown" name "macro is not defined in the shipped headers")
      | some k => if k == args.length then none else
          some (fnd "macro-arity" name s!"invoked with {args.length} arguments, defined with {k}")
    | _ => none

def check (hw : HwFacts) (py : PyFacts) (_d : Desc) (n : Net) : List Finding :=
  let insts := n.insts.flatMap (instFindings hw)
  let macros := macroFindings hw n.pkg
  let cfgFields := (n.routeCfg.filterMap fun (k, _) =>
      if (structFields hw "route_cfg_t").contains k then none
      else some (fnd "cfg-field" s!"RouteCfg.{k}" "not a field of floo_pkg::route_cfg_t")) ++
    ((structFields hw "route_cfg_t").filterMap fun f =>
      if n.routeCfg.any (·.1 == f) then none else some (fnd "cfg-field" s!"RouteCfg.{f}" "field of route_cfg_t not set"))
  -- every record of a floo_pkg struct type written in the package names only fields of that struct
  let axiCfg := n.pkgParams.flatMap fun (nm, t, v) =>
    match t.words with
    | [w] =>
      if (hw.structs.any (·.name == w)) && w != "route_cfg_t" then
        match v with
        | .pat fs => fs.filterMap fun (k, _) =>
            match k with
            | some k => if (structFields hw w).contains k || k == "default" then none
                        else some (fnd "cfg-field" s!"{nm}.{k}" s!"not a field of floo_pkg::{w}")
            | none => none
        | _ => []
      else []
    | _ => []
  let algo := match ((n.routeCfg.find? (·.1 == "RouteAlgo")).map (·.2) : Option Expr) with
    | some (.ident a) => if (enumMembers hw "route_algo_e").any (·.1 == a) then [] else
        [fnd "route-algo" a "not a member of floo_pkg::route_algo_e"]
    | _ => [fnd "route-algo" "RouteCfg.RouteAlgo" "missing"]
  let algoInst := (Hw.routers n).filterMap fun r =>
    match ((r.params.find? (·.1 == "RouteAlgo")).map (·.2) : Option Expr) with
    | some (.ident a) => if (enumMembers hw "route_algo_e").any (·.1 == a) then none else
        some (fnd "route-algo" r.name s!"{a} is not a member of floo_pkg::route_algo_e")
    | _ => none
  let setPorts := (Hw.chimneys n).flatMap fun c => c.params.filterMap fun (p, e) =>
    match e with
    | .call f args =>
      match hw.funcs.find? (·.name == f) with
      | some fd => if fd.arity == args.length then none else some (fnd "func-arity" s!"{c.name}.{p}" s!"{f} takes {fd.arity} arguments")
      | none => some (fnd "func-unknown" s!"{c.name}.{p}" s!"{f} is not a function of floo_pkg")
    | _ => none
  let dirs :=
    let hwDirs := (enumMembers hw "route_direction_e").filter (·.1 != "NumDirections")
    let pyDirs := py.xyDirections
    if hwDirs.length == pyDirs.length &&
       (hwDirs.all fun (nm, v) => pyDirs.any fun (pn, pv) => pn.toUpper == nm.toUpper && pv == v) then []
    else [fnd "direction-numbering" "XYDirections" s!"generator {repr pyDirs} vs hardware {repr hwDirs}"]
  insts ++ macros ++ cfgFields ++ axiCfg ++ algo ++ algoInst ++ setPorts ++ dirs

end C11

/-! ## C12 -/
instance : BEq Finding := ⟨fun a b => a.claim == b.claim && a.site == b.site && a.detail == b.detail⟩

namespace C12

/-- bracket matching over the token stream, with an explicit stack -/
def closerOf (t : String) : Option String :=
  if t == "(" || t == "'(" then some ")"
  else if t == "[" then some "]"
  else if t == "{" || t == "'{" then some "}"
  else if t == "module" then some "endmodule"
  else if t == "package" then some "endpackage"
  else none

def isCloser (t : String) : Bool :=
  t == ")" || t == "]" || t == "}" || t == "endmodule" || t == "endpackage"

def balancedGo : List String → List String → Bool
  | [], stack => stack.isEmpty
  | t :: ts, stack =>
    match closerOf t with
    | some c => balancedGo ts (c :: stack)
    | none =>
      if isCloser t then
        match stack with
        | c :: rest => if c == t then balancedGo ts rest else false
        | [] => false
      else balancedGo ts stack

def balanced (toks : List String) : Bool := balancedGo toks []

mutual
partial def exprIdents : Expr → List String
  | .ident s => [s]
  | .neg e => exprIdents e
  | .index e i => exprIdents e ++ exprIdents i
  | .call f args => f :: args.flatMap exprIdents
  | .cast t e => t :: exprIdents e
  | .pat fs => fs.flatMap fun (_, e) => exprIdents e
  | .sub a b => exprIdents a ++ exprIdents b
  | _ => []
end

mutual
partial def exprLits : Expr → List Lit
  | .lit w b d => [.sized w b d]
  | .neg e => exprLits e
  | .index e i => exprLits e ++ exprLits i
  | .call _ args => args.flatMap exprLits
  | .cast _ e => exprLits e
  | .pat fs => fs.flatMap fun (_, e) => exprLits e
  | .sub a b => exprLits a ++ exprLits b
  | _ => []
end

def typeIdents (t : TypeRef) : List String :=
  t.words ++ t.dims.flatMap fun (h, l) => exprIdents h ++ exprIdents l

def builtins : List String := ["logic", "int", "unsigned", "bit"]

/-- names an item declares / uses -/
def itemDecls (hw : HwFacts) : Item → List String
  | .typedefEnum _ ms n => n :: ms.map (·.1)
  | .typedefStruct _ n => [n]
  | .typedef _ n => [n]
  | .localparam _ n _ => [n]
  | .macro name args => C11.macroDefines hw 4 name (args.map fun a => String.join a)
  | .decl _ n => [n]
  | .inst _ _ n _ => [n]
  | _ => []

def itemUses : Item → List String
  | .typedefEnum b ms _ => typeIdents b ++ ms.flatMap fun (_, v) => exprIdents v
  | .typedefStruct fs _ => fs.flatMap fun (t, _) => typeIdents t
  | .typedef t _ => typeIdents t
  | .localparam t _ v => typeIdents t ++ exprIdents v
  | .macro _ args => args.flatMap fun a => a.filter fun t => Sv.isIdentTok t
  | .decl t _ => typeIdents t
  | .assign l r => exprIdents l ++ exprIdents r
  | .inst _ ps _ bs => ps.flatMap (fun (_, e) => exprIdents e) ++
      bs.flatMap fun
        | .implicit p => [p]
        | .open_ _ => []
        | .conn _ e => exprIdents e
  | _ => []

def itemLits : Item → List Lit
  | .typedefEnum _ ms _ => ms.flatMap fun (_, v) => exprLits v
  | .localparam _ _ v => exprLits v
  | .assign l r => exprLits l ++ exprLits r
  | .inst _ ps _ bs => ps.flatMap (fun (_, e) => exprLits e) ++
      bs.flatMap fun | .conn _ e => exprLits e | _ => []
  | _ => []

def flooPkgNames (hw : HwFacts) : List String :=
  hw.enums.flatMap (fun e => e.name :: e.members.map (·.1)) ++ hw.structs.map (·.name) ++
  hw.funcs.map (·.name) ++ hw.params

def dupNames (l : List String) : List String :=
  (l.filter fun x => (l.filter (· == x)).length > 1).eraseDups

/-- macro arguments that are *names being chosen* (first args of the typedef macros) rather
    than uses; to stay independent of macro internals every identifier argument is treated as
    a use unless the macro itself declares a name built from it -/
def macroArgIsUse (declared : List String) (a : String) : Bool := declared.contains a

def check (hw : HwFacts) (pkgToks topToks : List String) (_d : Desc) (n : Net) : List Finding :=
  let bal :=
    (if balanced pkgToks then [] else [fnd "unbalanced" "package" "brackets / package delimiters do not balance"]) ++
    (if balanced topToks then [] else [fnd "unbalanced" "top" "brackets / module delimiters do not balance"])
  let pkgDecl := n.pkg.items.flatMap (itemDecls hw)
  let topDecl := n.top.ports.map (·.name) ++ n.top.items.flatMap (itemDecls hw)
  let dups := (dupNames pkgDecl).map (fun x => fnd "declared-twice" s!"package:{x}" "name declared twice in the package") ++
              (dupNames topDecl).map (fun x => fnd "declared-twice" s!"top:{x}" "name declared twice in the top module")
  let fp := flooPkgNames hw
  let pkgKnown := pkgDecl ++ fp ++ builtins
  let pkgUse := n.pkg.items.flatMap fun it =>
    match it with
    | .macro _ _ =>
      -- identifier arguments that are not building blocks of declared names must be known
      (itemUses it).filter fun a => !(pkgDecl.any fun dn => (dn.splitOn a).length > 1) || pkgKnown.contains a
    | _ => itemUses it
  let undeclPkg := ((pkgUse.filter fun u => !pkgKnown.contains u).eraseDups).map fun u =>
    fnd "undeclared" s!"package:{u}" "identifier is used but declared nowhere"
  let topKnown := topDecl ++ pkgDecl ++ fp ++ builtins
  let topUse := n.top.ports.flatMap (fun p => typeIdents p.ty) ++ n.top.items.flatMap itemUses
  let undeclTop := ((topUse.filter fun u => !topKnown.contains u).eraseDups).map fun u =>
    fnd "undeclared" s!"top:{u}" "identifier is used but declared nowhere"
  let lits := (n.pkg.items.flatMap itemLits ++ n.top.items.flatMap itemLits)
  let litF := ((lits.filter fun l => !l.fits).eraseDups).map fun l =>
    fnd "literal-fit" (match l with | .sized w b d => s!"{w}'{b}{d}" | .plain k => toString k) "sized literal does not hold its value in the stated width"
  let samW := n.sam.filterMap fun r =>
    match r.start, r.stop with
    | .sized w _ _, .sized w' _ _ => if w == n.aw && w' == n.aw then none else
        some (fnd "literal-width" s!"Sam:{r.start.val}" s!"address literal width {w}/{w'} differs from the address width {n.aw}")
    | _, _ => some (fnd "literal-width" s!"Sam:{r.start.val}" "unsized address bound")
  let samIdx := n.sam.filterMap fun r =>
    if C07.idFits n r.idx then none else some (fnd "field-fit" s!"Sam:{r.start.val}" s!"destination {repr r.idx} does not fit id_t")
  let idb := Hw.idBits n
  let tables := (Hw.routers n).flatMap fun r =>
    match Hw.routerTable n r with
    | some rules => rules.flatMap fun rule =>
        (if rule.start.val < 2 ^ idb then [] else [fnd "field-fit" s!"{r.name}:start_addr" s!"{rule.start.val} does not fit id_t ({idb} bits)"]) ++
        (if rule.stop.val < 2 ^ idb then [] else [fnd "field-fit" s!"{r.name}:end_addr" s!"{rule.stop.val} does not fit id_t ({idb} bits)"]) ++
        (match rule.idx with
         | .simple p => if p < 2 ^ Hw.ruleIdxBits n r then [] else [fnd "field-fit" s!"{r.name}:idx" s!"port {p} does not fit the idx field ({Hw.ruleIdxBits n r} bits)"]
         | _ => [fnd "field-fit" s!"{r.name}:idx" "not a port number"])
    | none => []
  let ids := n.localparams.filterMap fun (nm, t, v) =>
    if t.words == ["id_t"] then
      match exprIdVal? v with
      | some iv => if C07.idFits n iv then none else some (fnd "field-fit" nm s!"{repr iv} does not fit id_t")
      | none => some (fnd "field-fit" nm "not an identity value")
    else none
  bal ++ dups ++ undeclPkg ++ undeclTop ++ litF ++ samW ++ samIdx ++ tables.eraseDups ++ ids

end C12

end FlooVerif

/-
  Abstract syntax of the SystemVerilog subset that floogen emits, a parser from the
  token list (produced by harness/svtok.py) and the inverse renderer.
  The parser is `partial` (executable only, never mentioned by a theorem); it is
  validated on every explored input by the losslessness check `render (parse t) = t`.
-/
namespace FlooVerif.Sv

inductive Expr where
  | num (n : Nat)
  | neg (e : Expr)
  | lit (w : Nat) (base : Char) (digits : String)
  | tick (c : Char)                               -- '0 '1
  | ident (s : String)
  | index (e i : Expr)
  | call (f : String) (args : List Expr)
  | cast (ty : String) (e : Expr)
  | pat (fields : List (Option String × Expr))    -- '{ [k:] v, ... }
  | sub (a b : Expr)                              -- a - b (array dims only)
  deriving Repr, Inhabited

mutual
partial def Expr.beq : Expr → Expr → Bool
  | .num a, .num b => a == b
  | .neg a, .neg b => Expr.beq a b
  | .lit w b d, .lit w' b' d' => w == w' && b == b' && d == d'
  | .tick a, .tick b => a == b
  | .ident a, .ident b => a == b
  | .index a i, .index b j => Expr.beq a b && Expr.beq i j
  | .call f a, .call g b => f == g && Expr.beqList a b
  | .cast t a, .cast u b => t == u && Expr.beq a b
  | .pat a, .pat b => Expr.beqFields a b
  | .sub a b, .sub c d => Expr.beq a c && Expr.beq b d
  | _, _ => false
partial def Expr.beqList : List Expr → List Expr → Bool
  | [], [] => true
  | a :: as, b :: bs => Expr.beq a b && Expr.beqList as bs
  | _, _ => false
partial def Expr.beqFields : List (Option String × Expr) → List (Option String × Expr) → Bool
  | [], [] => true
  | (k, a) :: as, (l, b) :: bs => k == l && Expr.beq a b && Expr.beqFields as bs
  | _, _ => false
end

instance : BEq Expr := ⟨Expr.beq⟩

/-- A type reference: the words (`logic`, `int unsigned`, `floo_req_t`, `pkg::t`) and
    packed dimensions `[hi:lo]`. -/
structure TypeRef where
  words : List String
  dims : List (Expr × Expr) := []
  deriving Repr, Inhabited, BEq

structure Port where
  dir : String
  ty : TypeRef
  name : String
  deriving Repr, Inhabited, BEq

inductive Bind where
  | implicit (p : String)            -- .clk_i
  | open_ (p : String)               -- .p ( )
  | conn (p : String) (e : Expr)     -- .p ( e )
  deriving Repr, Inhabited, BEq

def Bind.port : Bind → String
  | .implicit p | .open_ p | .conn p _ => p

inductive Item where
  | include_ (s : String)
  | import_ (pkg : String)
  | typedefEnum (base : TypeRef) (members : List (String × Expr)) (name : String)
  | typedefStruct (fields : List (TypeRef × String)) (name : String)
  | typedef (ty : TypeRef) (name : String)
  | localparam (ty : TypeRef) (name : String) (val : Expr)
  | macro (name : String) (args : List (List String))
  | decl (ty : TypeRef) (name : String)
  | assign (lhs rhs : Expr)
  | inst (mod : String) (params : List (String × Expr)) (name : String) (binds : List Bind)
  deriving Repr, Inhabited, BEq

structure Package where
  includes : List String          -- before `package`
  name : String
  items : List Item
  deriving Repr, Inhabited, BEq

structure Module where
  name : String
  imports : List String
  ports : List Port
  items : List Item
  deriving Repr, Inhabited, BEq

/-! ### Rendering (AST → tokens) -/

def natToString (n : Nat) : String := toString n

mutual
partial def Expr.render : Expr → List String
  | .num n => [toString n]
  | .neg e => "-" :: e.render
  | .lit w b d => [toString w ++ "'" ++ String.singleton b ++ d]
  | .tick c => ["'" ++ String.singleton c]
  | .ident s => [s]
  | .index e i => e.render ++ ["["] ++ i.render ++ ["]"]
  | .call f args => [f, "("] ++ Expr.renderList args ++ [")"]
  | .cast t e => [t, "'("] ++ e.render ++ [")"]
  | .pat fs => ["'{"] ++ Expr.renderFields fs ++ ["}"]
  | .sub a b => a.render ++ ["-"] ++ b.render
partial def Expr.renderList : List Expr → List String
  | [] => []
  | [e] => e.render
  | e :: es => e.render ++ [","] ++ Expr.renderList es
partial def Expr.renderFields : List (Option String × Expr) → List String
  | [] => []
  | [(k, e)] => (match k with | some k => [k, ":"] | none => []) ++ e.render
  | (k, e) :: es => (match k with | some k => [k, ":"] | none => []) ++ e.render ++ [","] ++
      Expr.renderFields es
end

def TypeRef.render (t : TypeRef) : List String :=
  t.words ++ t.dims.flatMap (fun (h, l) => ["["] ++ h.render ++ [":"] ++ l.render ++ ["]"])

def intersperseTok (sep : String) : List (List String) → List String
  | [] => []
  | [x] => x
  | x :: xs => x ++ [sep] ++ intersperseTok sep xs

def Bind.render : Bind → List String
  | .implicit p => [".", p]
  | .open_ p => [".", p, "(", ")"]
  | .conn p e => [".", p, "("] ++ e.render ++ [")"]

def Item.render : Item → List String
  | .include_ s => ["`include", s]
  | .import_ p => ["import", p, "::", "*", ";"]
  | .typedefEnum b ms n =>
      ["typedef", "enum"] ++ b.render ++ ["{"] ++
      intersperseTok "," (ms.map fun (m, v) => [m, "="] ++ v.render) ++ ["}", n, ";"]
  | .typedefStruct fs n =>
      ["typedef", "struct", "packed", "{"] ++
      fs.flatMap (fun (t, f) => t.render ++ [f, ";"]) ++ ["}", n, ";"]
  | .typedef t n => ["typedef"] ++ t.render ++ [n, ";"]
  | .localparam t n v => ["localparam"] ++ t.render ++ [n, "="] ++ v.render ++ [";"]
  | .macro n args => [n, "("] ++ intersperseTok "," args ++ [")"]
  | .decl t n => t.render ++ [n, ";"]
  | .assign l r => ["assign"] ++ l.render ++ ["="] ++ r.render ++ [";"]
  | .inst m ps n bs =>
      [m, "#", "("] ++ intersperseTok "," (ps.map fun (p, e) => [".", p, "("] ++ e.render ++ [")"]) ++
      [")", n, "("] ++ intersperseTok "," (bs.map Bind.render) ++ [")", ";"]

def Package.render (p : Package) : List String :=
  p.includes.flatMap (fun s => ["`include", s]) ++ ["package", p.name, ";"] ++
  p.items.flatMap Item.render ++ ["endpackage"]

def Port.render (p : Port) : List String := [p.dir] ++ p.ty.render ++ [p.name]

def Module.render (m : Module) : List String :=
  ["module", m.name] ++ m.imports.flatMap (fun p => ["import", p, "::", "*", ";"]) ++
  ["("] ++ intersperseTok "," (m.ports.map Port.render) ++ [")", ";"] ++
  m.items.flatMap Item.render ++ ["endmodule"]

/-! ### Parsing (tokens → AST) -/

abbrev P := StateT (List String) (Except String)

def peek : P (Option String) := do return (← get).head?
def peek2 : P (Option String) := do return (← get).tail.head?
def next : P String := do
  match (← get) with
  | [] => throw "unexpected end of input"
  | t :: ts => set ts; return t
def expect (s : String) : P Unit := do
  let t ← next
  if t != s then
    let rest := (← get).take 8
    throw s!"expected '{s}' got '{t}' before {rest}"
def accept (s : String) : P Bool := do
  if (← peek) == some s then discard next; return true else return false

def isIdentTok (s : String) : Bool :=
  match s.toList with
  | c :: _ => c.isAlpha || c == '_' || c == '$'
  | [] => false
def isNumTok (s : String) : Bool :=
  !s.isEmpty && s.toList.all fun c => c.isDigit || c == '_'
def parseNat (s : String) : Nat :=
  (s.toList.filter Char.isDigit).foldl (fun a c => a * 10 + (c.toNat - '0'.toNat)) 0

/-- `48'h00ff` → (48, 'h', "00ff") -/
def splitSized (s : String) : Option (Nat × Char × String) :=
  match s.splitOn "'" with
  | [w, rest] =>
    if isNumTok w then
      match rest.toList with
      | b :: ds => if ds.isEmpty then none else some (parseNat w, b, String.ofList ds)
      | [] => none
    else none
  | _ => none

def ident : P String := do
  let t ← next
  if isIdentTok t then return t else throw s!"expected identifier, got '{t}'"

mutual
partial def primary : P Expr := do
  let t ← next
  if t == "-" then
    return .neg (← primary)
  else if t == "'{" then
    let fs ← patFields
    expect "}"
    return .pat fs
  else if t == "(" then
    let e ← expr
    expect ")"
    return e
  else if t.length == 2 && t.front == '\'' then
    return .tick (t.toList.getD 1 '0')
  else if let some (w, b, d) := splitSized t then
    return .lit w b d
  else if isNumTok t then
    return .num (parseNat t)
  else if isIdentTok t then
    let mut name := t
    -- scoped name a::b
    while (← peek) == some "::" do
      discard next
      let n ← ident
      name := name ++ "::" ++ n
    if (← accept "'(") then
      let e ← expr
      expect ")"
      return .cast name e
    else if (← accept "(") then
      let args ← exprList ")"
      expect ")"
      return .call name args
    else
      let mut e : Expr := .ident name
      while (← peek) == some "[" do
        discard next
        let i ← expr
        expect "]"
        e := .index e i
      return e
  else throw s!"unexpected token '{t}' in expression"
partial def expr : P Expr := do
  let a ← primary
  if (← peek) == some "-" then
    discard next
    let b ← primary
    return .sub a b
  return a
partial def exprList (close : String) : P (List Expr) := do
  if (← peek) == some close then return []
  let e ← expr
  if (← accept ",") then
    return e :: (← exprList close)
  return [e]
partial def patFields : P (List (Option String × Expr)) := do
  if (← peek) == some "}" then return []
  let key ←
    (do
      match (← peek), (← peek2) with
      | some k, some ":" =>
        if isIdentTok k then discard next; discard next; return some k else return none
      | _, _ => return none : P (Option String))
  let e ← expr
  if (← accept ",") then
    return (key, e) :: (← patFields)
  return [(key, e)]
end

partial def dims : P (List (Expr × Expr)) := do
  if (← peek) == some "[" then
    discard next
    let h ← expr
    expect ":"
    let l ← expr
    expect "]"
    return (h, l) :: (← dims)
  return []

/-- Parse `words… [dims] name` where `name` is the last identifier before `stop`. -/
partial def typeAndName (stops : List String) : P (TypeRef × String) := do
  let mut words : List String := []
  let mut ds : List (Expr × Expr) := []
  repeat
    match (← peek) with
    | some t =>
      if stops.contains t then break
      if t == "[" then
        if !ds.isEmpty then throw "dims in two places"
        ds ← dims
      else if isIdentTok t then
        discard next
        let mut w := t
        while (← peek) == some "::" do
          discard next
          w := w ++ "::" ++ (← ident)
        words := words ++ [w]
      else throw s!"unexpected '{t}' in declaration"
    | none => throw "eof in declaration"
  match words.reverse with
  | n :: rest =>
    if rest.isEmpty then throw s!"declaration of '{n}' without type"
    -- dims must come before the name
    return ({ words := rest.reverse, dims := ds }, n)
  | [] => throw "empty declaration"

partial def macroArgs : P (List (List String)) := do
  -- after "(": raw token groups separated by top-level commas until ")"
  let mut args : List (List String) := []
  let mut cur : List String := []
  let mut depth : Nat := 0
  repeat
    let t ← next
    if t == ")" && depth == 0 then
      args := args ++ [cur]
      break
    else if t == "," && depth == 0 then
      args := args ++ [cur]
      cur := []
    else
      if t == "(" then depth := depth + 1
      if t == ")" then depth := depth - 1
      cur := cur ++ [t]
  return args

partial def binds : P (List Bind) := do
  if (← peek) == some ")" then return []
  expect "."
  let p ← ident
  let b ←
    (do
      if (← accept "(") then
        if (← accept ")") then return Bind.open_ p
        let e ← expr
        expect ")"
        return Bind.conn p e
      else return Bind.implicit p : P Bind)
  if (← accept ",") then
    return b :: (← binds)
  return [b]

partial def params : P (List (String × Expr)) := do
  if (← peek) == some ")" then return []
  expect "."
  let p ← ident
  expect "("
  let e ← expr
  expect ")"
  if (← accept ",") then
    return (p, e) :: (← params)
  return [(p, e)]

partial def enumMembers : P (List (String × Expr)) := do
  let n ← ident
  expect "="
  let v ← expr
  if (← accept ",") then
    return (n, v) :: (← enumMembers)
  return [(n, v)]

partial def structFields : P (List (TypeRef × String)) := do
  if (← peek) == some "}" then return []
  let (t, n) ← typeAndName [";"]
  expect ";"
  return (t, n) :: (← structFields)

partial def item : P Item := do
  let t ← next
  if t == "`include" then
    return .include_ (← next)
  else if t.front == '`' then
    expect "("
    return .macro t (← macroArgs)
  else if t == "import" then
    let p ← ident
    expect "::"; expect "*"; expect ";"
    return .import_ p
  else if t == "typedef" then
    if (← accept "enum") then
      let mut words : List String := []
      repeat
        let p ← peek
        if p == some "{" || p == some "[" then break
        words := words ++ [← ident]
      let ds ← dims
      expect "{"
      let ms ← enumMembers
      expect "}"
      let n ← ident
      expect ";"
      return .typedefEnum { words := words, dims := ds } ms n
    else if (← accept "struct") then
      expect "packed"; expect "{"
      let fs ← structFields
      expect "}"
      let n ← ident
      expect ";"
      return .typedefStruct fs n
    else
      let (ty, n) ← typeAndName [";"]
      expect ";"
      return .typedef ty n
  else if t == "localparam" then
    let (ty, n) ← typeAndName ["="]
    expect "="
    let v ← expr
    expect ";"
    return .localparam ty n v
  else if t == "assign" then
    let l ← expr
    expect "="
    let r ← expr
    expect ";"
    return .assign l r
  else if isIdentTok t then
    if (← peek) == some "#" then
      discard next
      expect "("
      let ps ← params
      expect ")"
      let n ← ident
      expect "("
      let bs ← binds
      expect ")"; expect ";"
      return .inst t ps n bs
    else
      modify (t :: ·)
      let (ty, n) ← typeAndName [";"]
      expect ";"
      return .decl ty n
  else throw s!"unexpected token '{t}' at item start"

partial def items (stop : String) : P (List Item) := do
  if (← peek) == some stop then return []
  let i ← item
  return i :: (← items stop)

partial def ports : P (List Port) := do
  if (← peek) == some ")" then return []
  let dir ← ident
  let (ty, n) ← typeAndName [",", ")"]
  let p : Port := { dir := dir, ty := ty, name := n }
  if (← accept ",") then
    return p :: (← ports)
  return [p]

partial def package_ : P Package := do
  let mut incs : List String := []
  while (← peek) == some "`include" do
    discard next
    incs := incs ++ [← next]
  expect "package"
  let n ← ident
  expect ";"
  let its ← items "endpackage"
  expect "endpackage"
  if !(← get).isEmpty then throw "trailing tokens after endpackage"
  return { includes := incs, name := n, items := its }

partial def module_ : P Module := do
  expect "module"
  let n ← ident
  let mut imps : List String := []
  while (← peek) == some "import" do
    discard next
    let p ← ident
    expect "::"; expect "*"; expect ";"
    imps := imps ++ [p]
  expect "("
  let ps ← ports
  expect ")"; expect ";"
  let its ← items "endmodule"
  expect "endmodule"
  if !(← get).isEmpty then throw "trailing tokens after endmodule"
  return { name := n, imports := imps, ports := ps, items := its }

def parsePackage (toks : List String) : Except String Package :=
  (package_.run toks).map (·.1)
def parseModule (toks : List String) : Except String Module :=
  (module_.run toks).map (·.1)

/-- Parse and check losslessness. -/
def parsePackageLossless (toks : List String) : Except String Package := do
  let p ← parsePackage toks
  if p.render != toks then throw "package: render (parse t) ≠ t"
  return p
def parseModuleLossless (toks : List String) : Except String Module := do
  let m ← parseModule toks
  if m.render != toks then throw "module: render (parse t) ≠ t"
  return m

end FlooVerif.Sv

import FlooVerif.Sv

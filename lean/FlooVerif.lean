-- This module serves as the root of the `FlooVerif` library.
-- Import modules here that should be built as part of the library.
import FlooVerif.Basic

import FlooVerif.Sv
import FlooVerif.Desc
import FlooVerif.Net
import FlooVerif.Hw
import FlooVerif.Expect
import FlooVerif.Check
import FlooVerif.DescJson

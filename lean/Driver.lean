import Lean.Data.Json
import FlooVerif.Sv
import FlooVerif.Net
import FlooVerif.Hw
import FlooVerif.DescJson
import FlooVerif.Check
import FlooVerif.Check2
import FlooVerif.Check3
import FlooVerif.Gen.HwFacts
import FlooVerif.Gen.PyFacts
import FlooVerif.Model.Emit
open Lean FlooVerif

def jStrList (j : Json) : Except String (List String) := do
  let arr ← j.getArr?
  arr.toList.mapM (·.getStr?)

def findingJson (f : Finding) : Json :=
  Json.mkObj [("claim", f.claim), ("site", f.site), ("detail", f.detail)]

def checkers : List (String × (Desc → Net → List Finding)) :=
  [("C01", C01.check), ("C02", C02.check), ("C03", C03.check), ("C04", C04.check), ("C05", C05.check),
   ("C06", C06.check), ("C07", C07.check), ("C08", C08.check), ("C09", C09.check),
   ("C11", C11.check Gen.hwFacts Gen.pyFacts), ("C13", C13.check), ("C14", C14.check)]

def firstDiff (a b : List String) : Json :=
  let rec go (i : Nat) : List String → List String → Json
    | x :: xs, y :: ys => if x == y then go (i + 1) xs ys else
        Json.mkObj [("at", i), ("model", Json.arr ((x :: xs).take 12 |>.map Json.str).toArray),
                    ("impl", Json.arr ((y :: ys).take 12 |>.map Json.str).toArray)]
    | [], [] => Json.null
    | xs, ys => Json.mkObj [("at", i), ("model", Json.arr (xs.take 12 |>.map Json.str).toArray),
                            ("impl", Json.arr (ys.take 12 |>.map Json.str).toArray)]
  go 0 a b

/-- run the Lean model of the generator and compare its token streams with the implementation's -/
def modelCompare (d : Desc) (pkg top : Option (List String)) : Json :=
  match Model.gen d with
  | .error e => Json.mkObj [("status", "rejected"), ("cls", e.cls), ("msg", e.msg)]
  | .ok (p, m) =>
    let pt := p.render
    let tt := m.render
    match pkg, top with
    | some pkg, some top =>
      Json.mkObj [("status", "ok"), ("pkgEqual", pt == pkg), ("topEqual", tt == top),
                  ("pkgDiff", if pt == pkg then Json.null else firstDiff pt pkg),
                  ("topDiff", if tt == top then Json.null else firstDiff tt top)]
    | _, _ => Json.mkObj [("status", "ok")]

def handle (j : Json) : Except String Json := do
  let cmd ← (← j.getObjVal? "cmd").getStr?
  match cmd with
  | "parse" =>
    let pkg ← jStrList (← j.getObjVal? "pkg")
    let top ← jStrList (← j.getObjVal? "top")
    let p ← Sv.parsePackageLossless pkg
    let m ← Sv.parseModuleLossless top
    return Json.mkObj [("ok", true), ("pkgItems", p.items.length), ("topItems", m.items.length)]
  | "check" =>
    let pkg ← jStrList (← j.getObjVal? "pkg")
    let top ← jStrList (← j.getObjVal? "top")
    let props ← jStrList (← j.getObjVal? "props")
    let d ← match decodeDesc (← j.getObjVal? "desc") with
      | .ok d => pure d
      | .error e => throw s!"desc: {e.cls}: {e.msg}"
    let p ← Sv.parsePackageLossless pkg
    let m ← Sv.parseModuleLossless top
    let n ← Net.ofSv p m
    let res := props.map fun pid =>
      if pid == "C12" then (pid, Json.arr ((C12.check Gen.hwFacts pkg top d n).map findingJson).toArray) else
      match checkers.find? (·.1 == pid) with
      | some (_, chk) => (pid, Json.arr ((chk d n).map findingJson).toArray)
      | none => (pid, Json.str "no such checker")
    let wantModel := (j.getObjValD "model").getBool?.toOption.getD false
    let model := if wantModel then modelCompare d (some pkg) (some top) else Json.null
    return Json.mkObj [("ok", true), ("findings", Json.mkObj res), ("model", model)]
  | "model" =>
    -- accept/reject decision of the model alone (the implementation rejected, or CLI-level checks)
    match decodeDesc (← j.getObjVal? "desc") with
    | .ok d => return Json.mkObj [("ok", true), ("model", modelCompare d none none)]
    | .error e => return Json.mkObj [("ok", true), ("model", Json.mkObj [("status", "rejected"), ("cls", e.cls), ("msg", e.msg)])]
  | _ => throw s!"unknown cmd {cmd}"

partial def loop (h : IO.FS.Stream) (out : IO.FS.Stream) : IO Unit := do
  let line ← h.getLine
  if line.isEmpty then return ()
  let res := match Json.parse line with
    | .error e => Json.mkObj [("error", s!"json: {e}")]
    | .ok j => match handle j with
      | .ok r => r
      | .error e => Json.mkObj [("error", e)]
  out.putStrLn res.compress
  out.flush
  loop h out

def main : IO Unit := do loop (← IO.getStdin) (← IO.getStdout)

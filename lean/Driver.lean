import Lean.Data.Json
import FlooVerif.Sv
open Lean FlooVerif

def jStrList (j : Json) : Except String (List String) := do
  let arr ← j.getArr?
  arr.toList.mapM (·.getStr?)

def handle (j : Json) : Except String Json := do
  let cmd ← (← j.getObjVal? "cmd").getStr?
  match cmd with
  | "parse" =>
    let pkg ← jStrList (← j.getObjVal? "pkg")
    let top ← jStrList (← j.getObjVal? "top")
    let p ← Sv.parsePackageLossless pkg
    let m ← Sv.parseModuleLossless top
    return Json.mkObj [("ok", true), ("pkgItems", p.items.length), ("topItems", m.items.length)]
  | _ => throw s!"unknown cmd {cmd}"

partial def loop (h : IO.FS.Stream) (out : IO.FS.Stream) : IO Unit := do
  let line ← h.getLine
  if line.isEmpty then return ()
  let res := match Json.parse line with
    | .error e => Json.mkObj [("error", s!"json: {e}")]
    | .ok j => match handle j with
      | .ok r => r
      | .error e => Json.mkObj [("error", e)]
  out.putStrLn res.compress
  out.flush
  loop h out

def main : IO Unit := do loop (← IO.getStdin) (← IO.getStdout)

import Lean.Data.Json
import FlooVerif.Sv
import FlooVerif.Net
import FlooVerif.Hw
import FlooVerif.DescJson
import FlooVerif.Check
import FlooVerif.Check2
import FlooVerif.Check3
import FlooVerif.Gen.HwFacts
import FlooVerif.Gen.PyFacts
import FlooVerif.Model.Emit
open Lean FlooVerif

def jStrList (j : Json) : Except String (List String) := do
  let arr ← j.getArr?
  arr.toList.mapM (·.getStr?)

def findingJson (f : Finding) : Json :=
  Json.mkObj [("claim", f.claim), ("site", f.site), ("detail", f.detail)]

def checkers : List (String × (Desc → Net → List Finding)) :=
  [("C01", C01.check), ("C02", C02.check), ("C03", C03.check), ("C04", C04.check), ("C05", C05.check),
   ("C06", C06.check), ("C07", C07.check), ("C08", C08.check), ("C09", C09.check),
   ("C11", C11.check Gen.hwFacts Gen.pyFacts), ("C13", C13.check), ("C14", C14.check)]

def firstDiff (a b : List String) : Json :=
  let rec go (i : Nat) : List String → List String → Json
    | x :: xs, y :: ys => if x == y then go (i + 1) xs ys else
        Json.mkObj [("at", i), ("model", Json.arr ((x :: xs).take 12 |>.map Json.str).toArray),
                    ("impl", Json.arr ((y :: ys).take 12 |>.map Json.str).toArray)]
    | [], [] => Json.null
    | xs, ys => Json.mkObj [("at", i), ("model", Json.arr (xs.take 12 |>.map Json.str).toArray),
                            ("impl", Json.arr (ys.take 12 |>.map Json.str).toArray)]
  go 0 a b

/-! slices: the part of both files a property's theorems and decider depend on -/
def wiringBinds : List String := ["id_i", "id_route_map_i", "route_table_i", "floo_req_i", "floo_req_o",
  "floo_rsp_i", "floo_rsp_o", "floo_wide_i", "floo_wide_o"]
def wiringParams : List String := ["RouteAlgo", "NumRoutes", "NumInputs", "NumOutputs", "NumAddrRules",
  "addr_rule_t", "RouteCfg", "id_t", "Sam", "route_t", "dst_t"]
def isPortsName (s : String) : Bool := s.startsWith "axi_" || s.startsWith "ChimneyCfg" || s.startsWith "AxiCfg"

def sliceItemRouting : Sv.Item → Option Sv.Item
  | .typedefEnum b ms n => some (.typedefEnum b ms n)
  | .typedef t n => if ["rob_idx_t", "port_id_t", "x_bits_t", "y_bits_t", "id_t", "route_t", "vc_id_t"].contains n
                    then some (.typedef t n) else none
  | .typedefStruct fs n => if n == "id_t" || n == "sam_rule_t" then some (.typedefStruct fs n) else none
  | .localparam t n v => if ["SamNumRules", "Sam", "RoutingTables", "RouteCfg", "NumSamRules"].contains n
                         then some (.localparam t n v) else none
  | _ => none

def sliceItemWiring : Sv.Item → Option Sv.Item
  | .inst m ps n bs => some (.inst m (ps.filter fun (p, _) => wiringParams.contains p) n
                                     (bs.filter fun b => wiringBinds.contains b.port))
  | .macro _ _ => none
  | it => some it

def sliceItemPorts : Sv.Item → Option Sv.Item
  | .inst m ps n bs => some (.inst m (ps.filter fun (p, _) => isPortsName p) n (bs.filter fun b => isPortsName b.port))
  | _ => none

def sliceTokens (which : String) (p : Sv.Package) (m : Sv.Module) : List String :=
  match which with
  | "routing+wiring" =>
    (p.items.filterMap sliceItemRouting).flatMap Sv.Item.render ++ (m.items.filterMap sliceItemWiring).flatMap Sv.Item.render
  | "wiring" => (m.items.filterMap sliceItemWiring).flatMap Sv.Item.render
  | "ports" =>
    (p.items.filter fun it => match it with
      | .localparam t _ _ => t.words == ["axi_cfg_t"]
      | .typedef _ n => n.endsWith "_t" && (n.endsWith "_addr_t" || n.endsWith "_data_t" || n.endsWith "_strb_t" || n.endsWith "_id_t" || n.endsWith "_user_t") && n != "id_t"
      | _ => false).flatMap Sv.Item.render ++
    m.ports.flatMap Sv.Port.render ++ (m.items.filterMap sliceItemPorts).flatMap Sv.Item.render
  | _ => p.render ++ m.render

/-- run the Lean model of the generator and compare its token streams with the implementation's -/
def modelCompare (d : Desc) (impl : Option (Sv.Package × Sv.Module)) (slice : String) : Json :=
  match Model.gen d with
  | .error e => Json.mkObj [("status", "rejected"), ("cls", e.cls), ("msg", e.msg)]
  | .ok (p, m) =>
    match impl with
    | some (ip, im) =>
      let a := sliceTokens slice p m
      let b := sliceTokens slice ip im
      let full := p.render == ip.render && m.render == im.render
      Json.mkObj [("status", "ok"), ("sliceEqual", a == b), ("fullEqual", full),
                  ("diff", if a == b then Json.null else firstDiff a b)]
    | none => Json.mkObj [("status", "ok")]

def handle (j : Json) : Except String Json := do
  let cmd ← (← j.getObjVal? "cmd").getStr?
  match cmd with
  | "parse" =>
    let pkg ← jStrList (← j.getObjVal? "pkg")
    let top ← jStrList (← j.getObjVal? "top")
    let p ← Sv.parsePackageLossless pkg
    let m ← Sv.parseModuleLossless top
    return Json.mkObj [("ok", true), ("pkgItems", p.items.length), ("topItems", m.items.length)]
  | "check" =>
    let pkg ← jStrList (← j.getObjVal? "pkg")
    let top ← jStrList (← j.getObjVal? "top")
    let props ← jStrList (← j.getObjVal? "props")
    let d ← match decodeDesc (← j.getObjVal? "desc") with
      | .ok d => pure d
      | .error e => throw s!"desc: {e.cls}: {e.msg}"
    let p ← Sv.parsePackageLossless pkg
    let m ← Sv.parseModuleLossless top
    let n ← Net.ofSv p m
    let res := props.map fun pid =>
      if pid == "C12" then (pid, Json.arr ((C12.check Gen.hwFacts pkg top d n).map findingJson).toArray) else
      match checkers.find? (·.1 == pid) with
      | some (_, chk) => (pid, Json.arr ((chk d n).map findingJson).toArray)
      | none => (pid, Json.str "no such checker")
    let wantModel := (j.getObjValD "model").getBool?.toOption.getD false
    let slice := (j.getObjValD "slice").getStr?.toOption.getD "all"
    let model := if wantModel then modelCompare d (some (p, m)) slice else Json.null
    let holds := props.filterMap fun pid =>
      if pid == "C01" then some (pid, Json.bool (C01.holds d n)) else none
    return Json.mkObj [("ok", true), ("findings", Json.mkObj res), ("model", model), ("holds", Json.mkObj holds)]
  | "model" =>
    -- accept/reject decision of the model alone (the implementation rejected, or CLI-level checks)
    match decodeDesc (← j.getObjVal? "desc") with
    | .ok d => return Json.mkObj [("ok", true), ("model", modelCompare d none "all")]
    | .error e => return Json.mkObj [("ok", true), ("model", Json.mkObj [("status", "rejected"), ("cls", e.cls), ("msg", e.msg)])]
  | _ => throw s!"unknown cmd {cmd}"

partial def loop (h : IO.FS.Stream) (out : IO.FS.Stream) : IO Unit := do
  let line ← h.getLine
  if line.isEmpty then return ()
  let res := match Json.parse line with
    | .error e => Json.mkObj [("error", s!"json: {e}")]
    | .ok j => match handle j with
      | .ok r => r
      | .error e => Json.mkObj [("error", e)]
  out.putStrLn res.compress
  out.flush
  loop h out

def main : IO Unit := do loop (← IO.getStdin) (← IO.getStdout)

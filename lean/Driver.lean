import Lean.Data.Json
import FlooVerif.Sv
import FlooVerif.Net
import FlooVerif.Hw
import FlooVerif.DescJson
import FlooVerif.Check
import FlooVerif.Check2
import FlooVerif.Check3
import FlooVerif.Gen.HwFacts
import FlooVerif.Gen.PyFacts
import FlooVerif.Model.Emit
import FlooVerif.Jobs
import FlooVerif.Check4
import FlooVerif.Gen.ManifestFacts
import FlooVerif.RouteMap
import FlooVerif.AddrRange
open Lean FlooVerif

def jStrList (j : Json) : Except String (List String) := do
  let arr ← j.getArr?
  arr.toList.mapM (·.getStr?)

def findingJson (f : Finding) : Json :=
  Json.mkObj [("claim", f.claim), ("site", f.site), ("detail", f.detail)]

def checkers : List (String × (Desc → Net → List Finding)) :=
  [("C01", C01.check), ("C02", C02.check), ("C03", C03.check), ("C04", C04.check), ("C05", C05.check),
   ("C06", C06.check), ("C07", C07.check), ("C08", C08.check), ("C09", C09.check),
   ("C11", C11.check Gen.hwFacts Gen.pyFacts), ("C13", C13.check), ("C14", C14.check)]

def firstDiff (a b : List String) : Json :=
  let rec go (i : Nat) : List String → List String → Json
    | x :: xs, y :: ys => if x == y then go (i + 1) xs ys else
        Json.mkObj [("at", i), ("model", Json.arr ((x :: xs).take 12 |>.map Json.str).toArray),
                    ("impl", Json.arr ((y :: ys).take 12 |>.map Json.str).toArray)]
    | [], [] => Json.null
    | xs, ys => Json.mkObj [("at", i), ("model", Json.arr (xs.take 12 |>.map Json.str).toArray),
                            ("impl", Json.arr (ys.take 12 |>.map Json.str).toArray)]
  go 0 a b

/-! slices: the part of both files a property's theorems and decider depend on -/
def wiringBinds : List String := ["id_i", "id_route_map_i", "route_table_i", "floo_req_i", "floo_req_o",
  "floo_rsp_i", "floo_rsp_o", "floo_wide_i", "floo_wide_o"]
def wiringParams : List String := ["RouteAlgo", "NumRoutes", "NumInputs", "NumOutputs", "NumAddrRules",
  "addr_rule_t", "RouteCfg", "id_t", "Sam", "route_t", "dst_t", "XYRouteOpt", "NoLoopback"]
def isPortsName (s : String) : Bool := s.startsWith "axi_" || s.startsWith "ChimneyCfg" || s.startsWith "AxiCfg"

def sliceItemRouting : Sv.Item → Option Sv.Item
  | .typedefEnum b ms n => some (.typedefEnum b ms n)
  | .typedef t n => if ["rob_idx_t", "port_id_t", "x_bits_t", "y_bits_t", "id_t", "route_t", "vc_id_t"].contains n
                    then some (.typedef t n) else none
  | .typedefStruct fs n => if n == "id_t" || n == "sam_rule_t" then some (.typedefStruct fs n) else none
  | .localparam t n v => if ["SamNumRules", "Sam", "RoutingTables", "RouteCfg", "NumSamRules"].contains n
                         then some (.localparam t n v) else none
  | _ => none

def sliceItemWiring : Sv.Item → Option Sv.Item
  | .inst m ps n bs => some (.inst m (ps.filter fun (p, _) => wiringParams.contains p) n
                                     (bs.filter fun b => wiringBinds.contains b.port))
  | .macro _ _ => none
  | it => some it

def sliceItemPorts : Sv.Item → Option Sv.Item
  | .inst m ps n bs => some (.inst m (ps.filter fun (p, _) => isPortsName p) n (bs.filter fun b => isPortsName b.port))
  | _ => none

/-- the slice as a list of rendered items; declarations are compared as a multiset (their order in
    the file carries no meaning for any property), so the list is sorted -/
def sliceItems (which : String) (p : Sv.Package) (m : Sv.Module) : List (List String) :=
  let items : List (List String) :=
    match which with
    | "routing+wiring" =>
      (p.items.filterMap sliceItemRouting).map Sv.Item.render ++ (m.items.filterMap sliceItemWiring).map Sv.Item.render
    | "wiring" => (m.items.filterMap sliceItemWiring).map Sv.Item.render
    | "ports" =>
      (p.items.filter fun it => match it with
        | .localparam t _ _ => t.words == ["axi_cfg_t"]
        | .typedef _ n => n.endsWith "_t" && (n.endsWith "_addr_t" || n.endsWith "_data_t" || n.endsWith "_strb_t" || n.endsWith "_id_t" || n.endsWith "_user_t") && n != "id_t"
        | _ => false).map Sv.Item.render ++
      m.ports.map Sv.Port.render ++ (m.items.filterMap sliceItemPorts).map Sv.Item.render
    | _ => [p.render ++ m.render]
  let key (l : List String) : String := String.intercalate " " l
  (items.map fun l => (key l, l)).mergeSort (fun a b => a.1 ≤ b.1) |>.map (·.2)

def sliceTokens (which : String) (p : Sv.Package) (m : Sv.Module) : List String :=
  (sliceItems which p m).flatMap fun l => l ++ ["⏎"]

/-- run the Lean model of the generator and compare its token streams with the implementation's -/
def modelCompare (d : Desc) (impl : Option (Sv.Package × Sv.Module)) (slice : String) : Json :=
  match Model.gen d with
  | .error e => Json.mkObj [("status", "rejected"), ("cls", e.cls), ("msg", e.msg)]
  | .ok (p, m) =>
    match impl with
    | some (ip, im) =>
      let a := sliceTokens slice p m
      let b := sliceTokens slice ip im
      let full := p.render == ip.render && m.render == im.render
      let hyp := match Model.createNetwork d with
        | .ok g => Model.pairedGraphB g && Model.onlyLinksAtRoutersB g
        | .error _ => false
      let rhyp := match Model.routed d with
        | .ok r => Model.routeHypB r
        | .error _ => false
      Json.mkObj [("status", "ok"), ("sliceEqual", a == b), ("fullEqual", full), ("graphHyp", hyp), ("routeHyp", rhyp),
                  ("diff", if a == b then Json.null else firstDiff a b)]
    | none => Json.mkObj [("status", "ok")]

def handle (j : Json) : Except String Json := do
  let cmd ← (← j.getObjVal? "cmd").getStr?
  match cmd with
  | "parse" =>
    let pkg ← jStrList (← j.getObjVal? "pkg")
    let top ← jStrList (← j.getObjVal? "top")
    let p ← Sv.parsePackageLossless pkg
    let m ← Sv.parseModuleLossless top
    return Json.mkObj [("ok", true), ("pkgItems", p.items.length), ("topItems", m.items.length)]
  | "check" =>
    let pkg ← jStrList (← j.getObjVal? "pkg")
    let top ← jStrList (← j.getObjVal? "top")
    let props ← jStrList (← j.getObjVal? "props")
    let d ← match decodeDesc (← j.getObjVal? "desc") with
      | .ok d => pure d
      | .error e => throw s!"desc: {e.cls}: {e.msg}"
    let p ← Sv.parsePackageLossless pkg
    let m ← Sv.parseModuleLossless top
    let n ← match Net.ofSv p m with
      | .ok n => pure n
      | .error e =>
        -- the netlist view cannot be built (e.g. `id_t` comes out of a macro): what C11 can still decide
        -- from the parsed package alone is whether the invoked macros exist
        let mf := C11.macroFindings Gen.hwFacts p
        if props.contains "C11" && !mf.isEmpty then
          return Json.mkObj [("ok", true), ("findings", Json.mkObj [("C11", Json.arr (mf.map findingJson).toArray)]),
                             ("model", Json.null), ("holds", Json.mkObj [])]
        else throw e
    let res := props.map fun pid =>
      if pid == "C12" then (pid, Json.arr ((C12.check Gen.hwFacts pkg top d n).map findingJson).toArray) else
      match checkers.find? (·.1 == pid) with
      | some (_, chk) => (pid, Json.arr ((chk d n).map findingJson).toArray)
      | none => (pid, Json.str "no such checker")
    let wantModel := (j.getObjValD "model").getBool?.toOption.getD false
    let slice := (j.getObjValD "slice").getStr?.toOption.getD "all"
    let model := if wantModel then modelCompare d (some (p, m)) slice else Json.null
    let holds := props.filterMap fun pid =>
      if pid == "C01" then some (pid, Json.bool (C01.holds d n)) else none
    return Json.mkObj [("ok", true), ("findings", Json.mkObj res), ("model", model), ("holds", Json.mkObj holds)]
  | "trim" =>
    let rules ← (← (← j.getObjVal? "rules").getArr?).toList.mapM fun r => do
      let a ← r.getArr?
      match a.toList with
      | [d, s, e] => pure ({ dest := ← d.getNat?, start := ← s.getInt?, stop := ← e.getInt?,
                             size := (← e.getInt?) - (← s.getInt?) } : MapRule Nat)
      | _ => throw "rule"
    let t := trim rules
    return Json.mkObj [("ok", true), ("noOverlap", checkNoOverlap rules),
      ("trim", Json.arr (t.map fun r => Json.arr #[Json.num (r.dest : Nat), Json.num r.start, Json.num r.stop, Json.num r.size]).toArray)]
  | "range" =>
    let spec ← match decodeRange (← j.getObjVal? "spec") with
      | .ok s => pure s
      | .error e => throw s!"spec: {e.msg}"
    let out (r : Except RangeErr AddrRange) : Json := match r with
      | .ok a => Json.mkObj [("ok", Json.arr #[Json.num a.start, Json.num a.stop, Json.num a.size,
          (match a.base with | some b => Json.num b | none => Json.null),
          (match a.idx with | some b => Json.num b | none => Json.null)])]
      | .error e => Json.mkObj [("err", toString (repr e))]
    let r := mkRange spec
    let re := match r, (j.getObjValD "setidx").getInt?.toOption with
      | .ok a, some k => some (out (a.setIdx k))
      | _, _ => none
    return Json.mkObj [("ok", true), ("range", out r), ("setidx", re.getD Json.null)]
  | "select" =>
    let kind ← (← j.getObjVal? "kind").getStr?
    let dims ← (← (← j.getObjVal? "dims").getArr?).toList.mapM (·.getNat?)
    let nm := (j.getObjValD "name").getStr?.toOption.getD "r"
    -- other inhabitants whose names start with the same characters: a second tree `<nm>2`, a unit `<nm>_cfg`
    let g0 : Model.Graph ← match (({} : Model.Graph).addNodesAsTree (nm ++ "2") [2, 2] 0 true 3 0) with
      | .ok g => (match g.addNode { name := nm ++ "_cfg", kind := .endpoint, descIdx := 0 } with
          | .ok g => pure g
          | .error e => throw s!"build: {e.msg}")
      | .error e => throw s!"build: {e.msg}"
    -- … and, next to a single-rooted tree, a second tree called `<nm>_1`
    let g0 ← if kind == "tree" && dims.head? == some 1 then
        (match g0.addNodesAsTree (nm ++ "_1") [2, 2] 0 true 3 0 with
          | .ok g => pure g
          | .error e => throw s!"build: {e.msg}")
      else pure g0
    let g ← match (if kind == "tree" then g0.addNodesAsTree nm dims 0 true (dims.length + 1) 0
                     else g0.addNodesAsArray nm dims .router 0 false) with
      | .ok g => pure g
      | .error e => throw s!"build: {e.msg}"
    let sel ← (← j.getObjVal? "sel").getStr?
    let res ← match sel with
      | "range" =>
        let rng ← (← (← j.getObjVal? "range").getArr?).toList.mapM fun p => do
          match (← p.getArr?).toList with
          | [a, b] => pure ((← a.getInt?), (← b.getInt?))
          | _ => throw "pair"
        pure (g.nodesFromRange nm rng)
      | "idx" =>
        let idx ← (← (← j.getObjVal? "idx").getArr?).toList.mapM (·.getInt?)
        pure (g.nodesFromIdx nm idx)
      | "lvl" => pure (g.nodesFromLvl nm (← (← j.getObjVal? "lvl").getInt?))
      | _ => throw "sel"
    return match res with
      | .ok l => Json.mkObj [("ok", true), ("nodes", Json.arr (l.map Json.str).toArray)]
      | .error e => Json.mkObj [("ok", true), ("err", e.cls)]
  | "embodied" =>
    -- the values a query can be compared with, read off the emitted package
    let pkg ← jStrList (← j.getObjVal? "pkg")
    let p ← Sv.parsePackageLossless pkg
    let enumMember (en mem : String) : Json :=
      match (findTypedefEnum p.items en).bind fun e => (e.members.find? (·.1 == mem)).map (·.2) with
      | some v => Json.num (v : Nat) | none => Json.null
    let bits (t : String) : Json := match typeBits? p.items t with | some v => Json.num (v : Nat) | none => Json.null
    let samN : Json := match findParam p.items "SamNumRules" with
      | some (_, .num v) => Json.num (v : Nat) | _ => Json.null
    let routeBits : Json := match (findTypedef p.items "route_t").bind logicVecBits? with
      | some v => Json.num (v : Nat) | none => Json.null
    -- the declared dimension `[h:0]` read as h + 1 (so floogen's `[-1:0]` for a zero-bit field reads as 0)
    let decl (t : String) : Json :=
      match ((findTypedef p.items t).map (·.dims) : Option (List (Sv.Expr × Sv.Expr))) with
      | some [(Sv.Expr.num h, Sv.Expr.num 0)] => Json.num ((h + 1 : Nat))
      | some [(Sv.Expr.neg (Sv.Expr.num 1), Sv.Expr.num 0)] => Json.num (0 : Nat)
      | some [] => Json.num (1 : Nat)
      | _ => Json.null
    return Json.mkObj [("ok", true), ("num_endpoints", enumMember "ep_id_e" "NumEndpoints"), ("id_bits", bits "id_t"),
      ("id_decl", decl "id_t"), ("x_decl", decl "x_bits_t"), ("y_decl", decl "y_bits_t"),
      ("x_bits", bits "x_bits_t"), ("y_bits", bits "y_bits_t"), ("route_bits", routeBits), ("sam_rules", samN)]
  | "manifest" =>
    return Json.mkObj [("ok", true), ("holds", C20.holds Gen.manifestFacts Gen.hwFacts),
      ("findings", Json.arr ((C20.check Gen.manifestFacts Gen.hwFacts).map findingJson).toArray),
      ("closure", Json.arr ((C20.closure Gen.hwFacts (Gen.hwFacts.modules.length + 1) C20.roots).map Json.str).toArray),
      ("entries", (Gen.manifestFacts.bender.length + Gen.manifestFacts.core.length : Nat))]
  | "pkgdecls" =>
    let pkg ← jStrList (← j.getObjVal? "pkg")
    let top ← jStrList (← j.getObjVal? "top")
    let p ← Sv.parsePackageLossless pkg
    let m ← Sv.parseModuleLossless top
    return Json.mkObj [("ok", true),
      ("decls", Json.arr ((p.items.flatMap (C12.itemDecls Gen.hwFacts)).map Json.str).toArray),
      ("ports", Json.arr (m.ports.map fun pt => Json.mkObj [("name", pt.name), ("dir", pt.dir)]).toArray),
      ("flooPkg", Json.arr ((C12.flooPkgNames Gen.hwFacts).map Json.str).toArray)]
  | "sam" =>
    -- address-map rules of an emitted package: (lo, hi) with hi = 0 meaning the top of the space
    let pkg ← jStrList (← j.getObjVal? "pkg")
    let p ← Sv.parsePackageLossless pkg
    match findParam p.items "Sam" with
    | some (_, .pat fs) =>
      let rules := fs.filterMap fun (_, e) => exprRule? e
      return Json.mkObj [("ok", true), ("rules", Json.arr (rules.map fun r =>
        Json.arr #[Json.num (r.start.val : Nat), Json.num (r.stop.val : Nat)]).toArray)]
    | _ => throw "no Sam"
  | "jobs" =>
    let tr ← (← j.getObjVal? "traffic").getStr?
    let wl ← (← j.getObjVal? "wl").getNat?
    let bursts ← (← j.getObjVal? "bursts").getNat?
    let rd ← (← j.getObjVal? "read").getBool?
    let rx := (j.getObjValD "rx").getNat?.toOption.getD 0
    let ry := (j.getObjValD "ry").getNat?.toOption.getD 0
    let t ← match tr with
      | "hbm" => pure Jobs.Traffic.hbm | "uniform" => pure (Jobs.Traffic.uniform rx ry) | "onehop" => pure .onehop
      | "bit_complement" => pure .bitComplement | "bit_reverse" => pure .bitReverse
      | "bit_rotation" => pure .bitRotation | "neighbor" => pure .neighbor | "shuffle" => pure .shuffle
      | "transpose" => pure .transpose | "tornado" => pure .tornado | "hotspot_boundary" => pure .hotspotBoundary
      | "hotspot" => pure .hotspot | "matmul" => pure .matmul
      | _ => throw "unknown traffic type"
    let tiles := (List.range Jobs.NX).flatMap fun x => (List.range Jobs.NY).map fun y => (x, y)
    return Json.mkObj [("ok", true), ("tiles", Json.arr (tiles.map fun (x, y) =>
      Json.arr ((Jobs.jobsOfTile t x y wl rd bursts).map fun jb =>
        Json.arr #[Json.num (jb.len : Nat), Json.num (jb.src : Nat), Json.num (jb.dst : Nat)]).toArray).toArray)]
  | "model" =>
    -- accept/reject decision of the model alone (the implementation rejected, or CLI-level checks)
    match decodeDesc (← j.getObjVal? "desc") with
    | .ok d => return Json.mkObj [("ok", true), ("model", modelCompare d none "all")]
    | .error e => return Json.mkObj [("ok", true), ("model", Json.mkObj [("status", "rejected"), ("cls", e.cls), ("msg", e.msg)])]
  | _ => throw s!"unknown cmd {cmd}"

partial def loop (h : IO.FS.Stream) (out : IO.FS.Stream) : IO Unit := do
  let line ← h.getLine
  if line.isEmpty then return ()
  let res := match Json.parse line with
    | .error e => Json.mkObj [("error", s!"json: {e}")]
    | .ok j => match handle j with
      | .ok r => r
      | .error e => Json.mkObj [("error", e)]
  out.putStrLn res.compress
  out.flush
  loop h out

def main : IO Unit := do loop (← IO.getStdin) (← IO.getStdout)
